---- MODULE Quant ----
(***************************************************************************************)
(* C10 -- quantised floats and fixed-point fields, in exact integer arithmetic.         *)
(*                                                                                     *)
(* An INSTANCE is one distinct (wire type, lower, upper, rounding mode) representation *)
(* found by reflection in the imported code (harness/c10.py writes them to the JSON     *)
(* file named by the environment variable QUANT_INSTS).  Every number of an instance    *)
(* is an integer numerator over the instance's common denominator D, in units of the    *)
(* instance's `unit` (1, pi, or the animation duration for key-frame times; the unit    *)
(* is a positive real the specification never needs to know):                           *)
(*                                                                                     *)
(*    rawMin..rawMax   what the wire type can hold                                     *)
(*    lo, hi           declared range (numerators)                                     *)
(*    A, B             value of raw r on the linear grid is  A + B*(r - rawMin)         *)
(*    zm               rounding mode "zero-median": the grid values strictly within one *)
(*                     step of zero ARE zero, and keep the side they came from as a tag *)
(*                     (the code's signed-zero trick; the tag is not an observable)     *)
(*    kind             "qfloat" | "fixed" | "numpy" | "time"                            *)
(*    closed           the representation declares a closed range: rawMax means hi.     *)
(*                     FALSE only for fixed point (hi = 2^intbits is exclusive) and for  *)
(*                     subclasses that install their own step (PackedTERotation)         *)
(*                                                                                     *)
(* Spec layer: Val/Tag (what a raw means) and Enc (the quantiser on grid values: clamp,   *)
(* the raw of that grid point, a tagged zero goes back to its side).  The machine walks    *)
(* every raw value of every instance; TLC checks the property's clauses in every state. *)
(* Quant_MBT prints the table raw |-> (Val, Tag, Enc(Val,Tag), ends) that c10.py replays *)
(* into the real adapters.                                                              *)
(***************************************************************************************)
EXTENDS Integers, Sequences, Json, IOUtils, TLC

Insts == JsonDeserialize(IOEnv.QUANT_INSTS)
\* Composite representations (quantised vectors, packed quaternions, vector lists ...): each
\* is a sequence of scalar instances (indices into Insts) read/written as one field, found by
\* reflection: [id, comps: <<instance index>>, extra: <<raw tuples sampled by the harness>>]
Comps == JsonDeserialize(IOEnv.QUANT_COMPS)
\* Parametric ranges.  A FAMILY is a quantiser whose range [lo, hi] is not fixed in the code but
\* arrives at run time (key-frame times: [0, duration of the animation]; directly constructed
\* QuantizedFloat / QuantizedNumPyArray):  [id, kind, rawMin, rawMax, zmAuto, lo0only]
\* A RANGE is [id, lo, hi, sym, lo0]: lo and hi are exact rationals "num/den" (decimal strings:
\* the numbers go from 2^-149 to 1e150, far outside TLC's integers, and the laws below are
\* invariant under the affine map grid -> [lo, hi], so the specification never computes with
\* them; it only needs lo = hi (degenerate), lo = -hi (sym) and lo = 0 (lo0)).
Fams   == JsonDeserialize(IOEnv.QUANT_FAMS)
Ranges == JsonDeserialize(IOEnv.QUANT_RANGES)

\* Schedules: orders in which ONE process runs all representations through the same long-lived
\* objects (module-level singletons, class-level state): [id, steps: <<[k, a, b]>>] where a step is
\* a fixed instance (k = "inst", a = instance index) or a (family a, range b) pair (k = "param").
Scheds == JsonDeserialize(IOEnv.QUANT_SCHEDS)

VARIABLES inst, raw,      \* scalar machine: instance index, raw value
          ci, tup,        \* composite machine: composite index, tuple of raw values
          pf, pr,         \* parametric machine: family index, range index (raw is shared)
          hs, hp, mem     \* history machine: schedule, position, what the quantiser code remembers
vars == <<inst, raw, ci, tup, pf, pr, hs, hp, mem>>

Abs(x) == IF x < 0 THEN -x ELSE x
MinOf(a, b) == IF a < b THEN a ELSE b
MaxOf(a, b) == IF a > b THEN a ELSE b

-----------------------------------------------------------------------------------------
(* Spec layer *)
Num(i, r)  == i.A + i.B * (r - i.rawMin)
Snap(i, r) == i.zm /\ Abs(Num(i, r)) < i.B
Tag(i, r)  == IF Snap(i, r) THEN (IF Num(i, r) < 0 THEN "neg" ELSE "pos") ELSE "none"
Val(i, r)  == IF Snap(i, r) THEN 0 ELSE Num(i, r)

Clamp(i, n) == MaxOf(i.lo, MinOf(i.hi, n))

\* The quantiser on the values the property speaks of (grid values, declared ends, zero):
\* clamp into the declared range; an exact zero of a zero-median instance is pushed half a
\* step towards the side named by its tag ("none" counts as "pos"); the result is the raw
\* whose grid value that is.  Half-numerators keep the half-step push integral.  The
\* property says nothing about how off-grid values are rounded, so neither does Enc:
\* OnGrid is checked as an invariant wherever Enc is used.
Half(i, n, tag) ==
    LET c    == Clamp(i, n)
        push == IF i.zm /\ c = 0 THEN (IF tag = "neg" THEN -i.B ELSE i.B) ELSE 0
    IN 2 * (c - i.A) + push
OnGrid(i, n, tag) == Half(i, n, tag) % (2 * i.B) = 0
Enc(i, n, tag) == i.rawMin + Half(i, n, tag) \div (2 * i.B)

HiOnGrid(i) == Num(i, i.rawMax) = i.hi
Centred(i)  == i.lo + i.hi = 0
\* the vectorised variant documents that it has no zero rounding; every other
\* representation with a range centred on zero must be able to say exactly zero
NeedsZero(i) == Centred(i) /\ i.kind # "numpy"

-----------------------------------------------------------------------------------------
(* The machine: one state per (instance, raw) *)
I == Insts[inst]
Init == inst \in DOMAIN Insts /\ raw = Insts[inst].rawMin /\ ci = 0 /\ tup = <<>> /\ pf = 0 /\ pr = 0 /\ hs = 0 /\ hp = 0 /\ mem = <<>>
Step == raw < I.rawMax /\ raw' = raw + 1 /\ UNCHANGED <<inst, ci, tup, pf, pr, hs, hp, mem>>
Next == Step
Spec == Init /\ [][Next]_vars

-----------------------------------------------------------------------------------------
(* The property, clause by clause *)
TypeOK == /\ I.rawMin <= raw /\ raw <= I.rawMax
          /\ I.B > 0 /\ I.D > 0 /\ I.A = I.lo /\ I.lo < I.hi
\* decode then encode gives back the same integer
RoundTrip == OnGrid(I, Val(I, raw), Tag(I, raw)) /\ Enc(I, Val(I, raw), Tag(I, raw)) = raw
\* decoding is monotonic in the raw value (strictly, outside the two-sided zero)
Monotone == raw > I.rawMin =>
              \/ Val(I, raw - 1) < Val(I, raw)
              \/ Val(I, raw - 1) = Val(I, raw) /\ Snap(I, raw - 1) /\ Snap(I, raw)
                   /\ Tag(I, raw - 1) = "neg" /\ Tag(I, raw) = "pos"
MonotoneStep == [][Val(I, raw) <= Val(I, raw')]_vars
\* ends of the declared range that lie on the raw grid
EndLo == raw = I.rawMin => Val(I, raw) = I.lo /\ OnGrid(I, I.lo, "none") /\ Enc(I, I.lo, "none") = raw
EndHi == (raw = I.rawMax /\ HiOnGrid(I)) => Val(I, raw) = I.hi /\ OnGrid(I, I.hi, "none") /\ Enc(I, I.hi, "none") = raw
\* a closed declared range ends on the raw grid
ClosedRange == I.closed => HiOnGrid(I)
\* nothing outside the declared range
InRange == I.lo <= Val(I, raw) /\ Val(I, raw) <= I.hi
\* zero of a centred range is representable (that every raw meaning zero gets back to
\* itself is RoundTrip; that the two sides of a zero are distinct is Monotone)
ZeroRepresentable == (raw = I.rawMin /\ NeedsZero(I)) => \E r \in I.rawMin..I.rawMax : Val(I, r) = 0

\* what the replay table says about a state: the meaning of the raw, where it must go back to,
\* whether it is an end of the declared range (and where that end, as a literal, must go),
\* whether the zero clause applies to it
End(i, r) == IF r = i.rawMin THEN "lo" ELSE IF r = i.rawMax /\ HiOnGrid(i) THEN "hi" ELSE ""
RowOf(i, r) == [i |-> i.id, raw |-> r, val |-> Val(i, r), tag |-> Tag(i, r),
                re |-> Enc(i, Val(i, r), Tag(i, r)), end |-> End(i, r),
                ee |-> Enc(i, IF End(i, r) = "hi" THEN i.hi ELSE i.lo, "none"),
                zero |-> (NeedsZero(i) /\ Val(i, r) = 0)]

-----------------------------------------------------------------------------------------
(* Composite representations.  The law: a composite of exact component inverses is an    *)
(* exact inverse -- decoding a tuple of raws component-wise and re-encoding the decoded   *)
(* composite value gives back the same tuple.  Nothing in the wire format couples the      *)
(* components, so no composite is exempt: this includes the 3-component packed             *)
(* quaternions, whose W is not sent and is reconstructed by the receiver (as 0 when the    *)
(* decoded X/Y/Z is longer than 1); re-encoding must leave X/Y/Z alone.                    *)
(* States: per composite, the lattice {ends, ends +-1, centre, centre +-1}^n of raw        *)
(* tuples plus the tuples sampled by the harness.                                          *)
ToSet(s) == {s[k] : k \in DOMAIN s}
Mid(i)  == i.rawMin + (i.rawMax - i.rawMin) \div 2
Edge(i) == {i.rawMin, i.rawMin + 1, Mid(i) - 1, Mid(i), Mid(i) + 1, i.rawMax - 1, i.rawMax}
CI(c, k) == Insts[c.comps[k]]
RECURSIVE Lattice(_, _)
Lattice(c, k) == IF k = 0 THEN {<<>>}
                 ELSE {Append(t, r) : t \in Lattice(c, k - 1), r \in Edge(CI(c, k))}
C == Comps[ci]
CInit == /\ ci \in DOMAIN Comps
         /\ tup \in Lattice(Comps[ci], Len(Comps[ci].comps)) \cup ToSet(Comps[ci].extra)
         /\ inst = 1 /\ raw = Insts[1].rawMin /\ pf = 0 /\ pr = 0 /\ hs = 0 /\ hp = 0 /\ mem = <<>>
CNext == UNCHANGED vars
CSpec == CInit /\ [][CNext]_vars

CompTypeOK == /\ Len(tup) = Len(C.comps)
              /\ \A k \in DOMAIN tup : CI(C, k).rawMin <= tup[k] /\ tup[k] <= CI(C, k).rawMax
CompRoundTrip == \A k \in DOMAIN tup :
                   LET i == CI(C, k) IN
                   /\ OnGrid(i, Val(i, tup[k]), Tag(i, tup[k]))
                   /\ Enc(i, Val(i, tup[k]), Tag(i, tup[k])) = tup[k]
CRow == [c |-> C.id, raws |-> tup,
         vals |-> [k \in DOMAIN tup |-> Val(CI(C, k), tup[k])],
         re   |-> [k \in DOMAIN tup |-> Enc(CI(C, k), Val(CI(C, k), tup[k]), Tag(CI(C, k), tup[k]))]]

-----------------------------------------------------------------------------------------
(* Parametric ranges.  For a family f and a non-degenerate range r the quantiser is the    *)
(* instance PInst(f, r) on the grid of f's wire type: steps S = rawMax - rawMin, value of   *)
(* raw k steps above rawMin is  lo + (hi - lo) * k / S.  In grid units that is the          *)
(* instance [A = 0, B = 1, D = S] (or, for a range symmetric about zero, [A = -S, B = 2,     *)
(* D = S] in units of hi, zero-median when the family infers it) -- every law of the scalar  *)
(* machine applies verbatim, with "exactly lo" / "exactly hi" at the two ends of the wire    *)
(* type, plus NEAREST: encoding any value of the range and decoding it again moves it by at  *)
(* most half a step.  A degenerate range (lo = hi) has one value: every raw decodes to       *)
(* exactly lo and lo encodes to rawMin (nothing else can be demanded of it).                 *)
(* States: every (family, range) x a lattice of raws (ends +-2, centre +-2, 12 spread out).   *)
F == Fams[pf]
R == Ranges[pr]
Degenerate(r) == r.lo = r.hi
PInst(f, r) == LET S == f.rawMax - f.rawMin IN
               [id |-> f.id, kind |-> f.kind, rawMin |-> f.rawMin, rawMax |-> f.rawMax, D |-> S,
                A |-> IF r.sym THEN -S ELSE 0, B |-> IF r.sym THEN 2 ELSE 1,
                lo |-> IF r.sym THEN -S ELSE 0, hi |-> S,
                zm |-> r.sym /\ f.zmAuto, closed |-> TRUE]
P == PInst(F, R)
PLattice(f) == LET S == f.rawMax - f.rawMin
                   m == f.rawMin + S \div 2 IN
               {f.rawMin, f.rawMin + 1, f.rawMin + 2, m - 2, m - 1, m, m + 1, m + 2,
                f.rawMax - 2, f.rawMax - 1, f.rawMax}
               \cup {f.rawMin + (j * S) \div 13 : j \in 1..12}
PInit == /\ pf \in DOMAIN Fams /\ pr \in DOMAIN Ranges
         /\ Fams[pf].lo0only => Ranges[pr].lo0
         /\ raw \in PLattice(Fams[pf])
         /\ inst = 1 /\ ci = 0 /\ tup = <<>> /\ hs = 0 /\ hp = 0 /\ mem = <<>>
PNext == UNCHANGED vars
PSpec == PInit /\ [][PNext]_vars

\* n / d rounded to the nearest integer, ties to even; n >= 0, d > 0
RoundHalfEven(n, d) ==
    LET q == n \div d
        m == n % d
    IN IF 2 * m < d THEN q
       ELSE IF 2 * m > d THEN q + 1
       ELSE IF q % 2 = 0 THEN q ELSE q + 1
\* the ideal quantiser on quarter-step numerators n4 (value = n4 / 4 in numerator units)
Clamp4(i, n4)  == MaxOf(4 * i.lo, MinOf(4 * i.hi, n4))
EncNear(i, n4) == i.rawMin + RoundHalfEven(Clamp4(i, n4) - 4 * i.A, 4 * i.B)
\* raws whose grid value is within half a step of the (clamped) value n4 / 4
Allowed(i, r, n4) == {q \in MaxOf(i.rawMin, r - 2)..MinOf(i.rawMax, r + 2) :
                        2 * Abs(4 * Num(i, q) - Clamp4(i, n4)) <= 4 * i.B}
\* probes: a quarter and a half step to either side of the meaning of the current raw
Probe(i, r, s) == 4 * Val(i, r) + s * i.B
ProbeSet == {-2, -1, 1, 2}

PTypeOK == /\ F.rawMin <= raw /\ raw <= F.rawMax /\ (F.lo0only => R.lo0)
           /\ (R.sym => ~Degenerate(R) /\ ~R.lo0) /\ (Degenerate(R) => ~R.sym)
PRoundTrip == ~Degenerate(R) => OnGrid(P, Val(P, raw), Tag(P, raw)) /\ Enc(P, Val(P, raw), Tag(P, raw)) = raw
PMonotone  == (~Degenerate(R) /\ raw > F.rawMin) =>
                \/ Val(P, raw - 1) < Val(P, raw)
                \/ Val(P, raw - 1) = Val(P, raw) /\ Tag(P, raw - 1) = "neg" /\ Tag(P, raw) = "pos"
\* the two ends of the wire type mean exactly lo and exactly hi, and go back there
PEnds == ~Degenerate(R) =>
           /\ raw = F.rawMin => (Val(P, raw) = P.lo /\ Enc(P, P.lo, "none") = raw)
           /\ raw = F.rawMax => (Val(P, raw) = P.hi /\ HiOnGrid(P) /\ Enc(P, P.hi, "none") = raw)
PZero == (~Degenerate(R) /\ raw = F.rawMin /\ NeedsZero(P)) => \E q \in F.rawMin..F.rawMax : Val(P, q) = 0
\* decode after encode moves a value by at most half a step; a value a quarter step off the grid
\* has exactly one such raw, the one it came from (unless clamped at an end)
PNearest == ~Degenerate(R) => \A s \in ProbeSet :
              LET n4 == Probe(P, raw, s) IN
              /\ EncNear(P, n4) \in Allowed(P, raw, n4)
              /\ (s \in {-1, 1} /\ Clamp4(P, n4) = n4 /\ ~Snap(P, raw)) => Allowed(P, raw, n4) = {Enc(P, Val(P, raw), Tag(P, raw))}
PEndOf(f, r) == IF r = f.rawMin THEN "lo" ELSE IF r = f.rawMax THEN "hi" ELSE ""
PRow == IF Degenerate(R)
        THEN [f |-> F.id, rg |-> R.id, raw |-> raw, deg |-> TRUE, val |-> 0, D |-> 1, sym |-> FALSE, end |-> "lo",
              re |-> F.rawMin, zero |-> FALSE, near |-> <<>>]
        ELSE [f |-> F.id, rg |-> R.id, raw |-> raw, deg |-> FALSE, val |-> Val(P, raw), D |-> P.D, sym |-> R.sym,
              end |-> PEndOf(F, raw), re |-> Enc(P, Val(P, raw), Tag(P, raw)),
              zero |-> (NeedsZero(P) /\ Val(P, raw) = 0),
              near |-> [k \in 1..4 |-> LET s == IF k = 1 THEN -2 ELSE IF k = 2 THEN -1 ELSE IF k = 3 THEN 1 ELSE 2 IN
                                       [n4 |-> Clamp4(P, Probe(P, raw, s)), ok |-> Allowed(P, raw, Probe(P, raw, s))]]]

-----------------------------------------------------------------------------------------
(* History.  A quantiser is a FUNCTION of (representation, range, raw): whatever objects    *)
(* the code keeps alive between uses (module-level singletons shared by all animations,     *)
(* class-level tables shared by instances) must stay observationally empty.  The machine    *)
(* walks a schedule; `mem` is everything an earlier step may leave behind for a later one    *)
(* and never changes, so what step hp must answer is Table(step) -- the rows of the scalar   *)
(* and parametric machines above, which do not mention hs, hp or mem -- no matter which      *)
(* steps came before (other ranges on the same singleton, the other wire width of the same   *)
(* range, ascending / descending / interleaved orders).                                      *)
HSteps == Scheds[hs].steps
HInit == /\ hs \in DOMAIN Scheds /\ hp = 0 /\ mem = <<>>
         /\ inst = 1 /\ raw = Insts[1].rawMin /\ ci = 0 /\ tup = <<>> /\ pf = 0 /\ pr = 0
HStep == /\ hp < Len(HSteps) /\ hp' = hp + 1 /\ mem' = mem
         /\ UNCHANGED <<inst, raw, ci, tup, pf, pr, hs>>
HSpec == HInit /\ [][HStep]_vars
StepOK(st) == \/ st.k = "inst" /\ st.a \in DOMAIN Insts /\ st.w = Insts[st.a].rawMax - Insts[st.a].rawMin
              \/ st.k = "param" /\ st.a \in DOMAIN Fams /\ st.b \in DOMAIN Ranges
                   /\ (Fams[st.a].lo0only => Ranges[st.b].lo0)
                   /\ st.w = Fams[st.a].rawMax - Fams[st.a].rawMin
                   /\ st.r = <<Ranges[st.b].lo, Ranges[st.b].hi>>
HTypeOK  == hp \in 0..Len(HSteps) /\ (hp > 0 => StepOK(HSteps[hp]))
MemEmpty == mem = <<>>
\* which earlier steps shared the range of this one at another wire width / shared its family
\* (st.r is the range as a token, st.w the width of the wire type; both checked in StepOK)
BoundsOf(st) == st.r
WidthOf(st)  == st.w
====
