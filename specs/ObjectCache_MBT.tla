---- MODULE ObjectCache_MBT ----
(* Export wrapper: the bounded graph of ObjectCache edge by edge (B1), the format table as pure     *)
(* calls in the initial state (B3), and once the bytes of everything a viewer may write.            *)
EXTENDS ObjectCache, Json
CONSTANT Depth
St == [dirs |-> dirs, vc |-> vc, rc |-> rc, chain |-> chain]
P(act, o) == PrintT(ToJson([src |-> St, act |-> act, dst |-> St', obs |-> [o |-> o, s |-> Obs']]))
Tables == [idx |-> [i \in 1..NIdx |-> IndexBytes(IdxVariants[i])],
           files |-> [i \in 1..Len(GraphFiles) |-> FilePieces(GraphFiles[i])],
           dirs |-> [v \in 1..Len(DirVariants) |-> [ix |-> DirVariants[v].ix, fl |-> DirVariants[v].fl, name |-> FileName(DirVariants[v].at)]],
           data |-> [d1 |-> DataOf("d1"), d2 |-> DataOf("d2"), d3 |-> DataOf("d3")], max |-> <<[b |-> <<77>>, rep |-> 10000]>>,
           lids |-> [l \in 1..3 |-> LidVal(l)], crcs |-> [c \in 1..2 |-> CrcBytes(c)]]
MInit == Init /\ PrintT(ToJson([init |-> St])) /\ PrintT(ToJson([tables |-> Tables]))
MNext == /\ TLCGet("level") < Depth
         /\ \/ \E d \in Dirs, v \in 1..NVariants : ViewerWrites(d, v) /\ P([n |-> "ViewerWrites", d |-> d, v |-> v], [ev |-> "write"])
            \/ \E d \in Dirs : IsValid(d) /\ P([n |-> "IsValid", d |-> d], [valid |-> IsValidAns(d)])
            \/ \E d \in Dirs : FromPath(d) /\ P([n |-> "FromPath", d |-> d], [k |-> FromPathRes(d).k, regs |-> FromPathRes(d).regs])
            \/ \E h \in Handles : ReadRegion(h) /\ P([n |-> "ReadRegion", h |-> h], [k |-> rc'.k])
            \/ \E l \in ProbeLids, c \in Crcs : Lookup(l, c) /\ P([n |-> "Lookup", lid |-> LidVal(l), crc |-> CrcBytes(c)], [ans |-> LookupAns(l, c)])
            \/ \E p \in ChainParams :
                  ForRegion(p[1], p[2], p[3]) /\ P([n |-> "ForRegion", h |-> p[1], cid |-> CidBytes(p[2]), which |-> p[3]], [len |-> Len(chain')])
            \/ \E l \in ProbeLids, c \in Crcs : ChainLookup(l, c) /\ P([n |-> "ChainLookup", lid |-> LidVal(l), crc |-> CrcBytes(c)], [ans |-> ChainAns(l, c)])
            \/ IsInit /\ \E f \in TableFiles : ParseFile(f) /\ P([n |-> "ParseFile", f |-> f, bytes |-> FilePieces(f)], ParseFileRes(f))
            \/ IsInit /\ \E i \in 1..NIdx : ParseIndex(i) /\ P([n |-> "ParseIndex", i |-> i], ParseIndexRes(i))
MSpec == MInit /\ [][MNext]_vars
====
