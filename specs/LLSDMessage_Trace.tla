---- MODULE LLSDMessage_Trace ----
(* Binding B2 of C12's message clause: template-generated messages sent through the real   *)
(* LLSDMessageSerializer.  Per message and form ("dict" = in-memory, "xml"):               *)
(*  {"ev":"Msg","name":n,"form":f,"st":"ok"|"raise","dst":"ok"|"raise","lname":name in the *)
(*   LLSD form,"top":[top-level keys],"ob":[[block,count]..] original,"lb":.. LLSD form,    *)
(*   "bb":.. message that came back}   (block lists sorted by name)                        *)
(*  {"ev":"Handled","name":n,"prof":p} an earlier message the same instance handled (histories) *)
(*  {"ev":"Blk","blk":b,"idx":i,"vars":[[var, template type, original value, LLSD value     *)
(*   found in the form, value that came back]..]}   one per block instance                 *)
EXTENDS LLSDMessage, Json, IOUtils, TLCExt
TraceLog == ndJsonDeserialize(IOEnv.TRACE_FILE)
TDom(t) == {}
NoTypes == {}
VARIABLES l, tid
Chk(name, cond) == IF cond THEN TRUE ELSE PrintT(ToJson([fail |-> name, line |-> l, tid |-> tid]))
Env(name, cond) == Assert(cond, <<"driver violated an environment assumption", name, l>>)
IsEvent(e) == l <= Len(TraceLog) /\ TraceLog[l].ev = e /\ l' = l + 1
Rec == TraceLog[l]
\* the carrier machine's own variables are not used by trace validation: parked
Parked == ty = "U8" /\ orig = MErr /\ phase = "msg" /\ carried = Err /\ xml = FALSE /\ result = MErr
          /\ prof = "full" /\ memo = "unset"
\* hist IS used: one trace = one serializer instance; hist holds <<message name, profile>> of everything
\* that instance has handled so far in this trace
ivars == <<ty, orig, phase, carried, xml, result, prof, memo>>
TInit == l = 1 /\ tid = -1 /\ Parked /\ hist = <<>>
\* a Reset is a fresh instance
TReset == IsEvent("Reset") /\ tid' = Rec.tid /\ hist' = <<>> /\ UNCHANGED ivars
\* {"ev":"Handled","name":n,"prof":p}: the instance handled (serialize + deserialize) an earlier message
THandled == IsEvent("Handled") /\ hist' = Append(hist, <<Rec.name, Rec.prof>>) /\ UNCHANGED <<tid, ivars>>

\* Msg additionally carries "prof", "hist" (what the driver believes the instance has seen) and "fp"/"fp0":
\* fingerprints of (LLSD form, message that came back) from this instance and from a fresh instance
TMsg == /\ IsEvent("Msg") /\ UNCHANGED <<tid, ivars>>
        /\ Env("driver and specification agree on the instance's history", Rec.hist = hist)
        /\ hist' = Append(hist, <<Rec.name, Rec.prof>>)
        /\ Chk("msg.history-independent", Rec.fp = Rec.fp0)
        /\ Chk("msg.serialize-ok", Rec.st = "ok")
        /\ Chk("msg.deserialize-ok", Rec.st = "ok" => Rec.dst = "ok")
        /\ Chk("msg.form-shape", Rec.st = "ok" => (Rec.lname = Rec.name /\ Rec.top = <<"body", "message">> /\ Rec.lb = Rec.ob))
        /\ Chk("msg.blocks-back", (Rec.st = "ok" /\ Rec.dst = "ok") => Rec.bb = Rec.ob)

VarOK(x) == /\ Env("value fits its template type", x[2] \in Types /\ Fits(x[2], x[3]))
            /\ Chk("var.carrier", Same(x[4], Carrier(x[2], x[3])))
            /\ Chk("var.carrier-is-llsd", IsLLSD(x[4]))
            /\ Chk("var.restores", SameMV(Restore(x[2], x[4]), x[3]))
            /\ Chk("var.roundtrip", SameMV(x[5], x[3]))
TBlk == /\ IsEvent("Blk") /\ UNCHANGED <<tid, vars>>
        /\ \A i \in 1..Len(Rec.vars) : VarOK(Rec.vars[i])

TNext == TReset \/ THandled \/ TMsg \/ TBlk
TraceSpec == TInit /\ [][TNext]_<<l, tid, vars>>
TraceAccepted == PrintT("TRACE_REACHED " \o ToString(TLCGet("stats").diameter - 1) \o " OF " \o ToString(Len(TraceLog)))
====
