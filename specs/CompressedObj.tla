---- MODULE CompressedObj ----
(***************************************************************************************)
(* C13.  The payload of ObjectUpdateCompressed.ObjectData.Data as a byte format,        *)
(* written as a third party: neither the declarative template nor the struct-based      *)
(* fast reader of Hippolyzer is transcribed here; this is the wire layout (47 fields in *)
(* wire order, each with its presence condition and framing) with                        *)
(*   - an encoder machine (Init / EmitRun) that builds every payload of a bounded       *)
(*     domain (flag words x object kinds x content variants) run by run: the header,    *)
(*     then up to and including each present variable-length section,                   *)
(*   - a reference parser Parse(p) (reads the flag word out of the bytes, walks the     *)
(*     fields) used by the invariants, by the table export and by the trace spec.       *)
(* TLC checks on the bounded model that the parser reads back exactly what the machine  *)
(* wrote at every prefix (unique readability), that presence/order are a function of    *)
(* the low 11 flag bits only, that the length is 84 + the framed sections, that a       *)
(* complete payload is well-formed and canonical, and that it is malformed when cut in  *)
(* front of / one byte short of the end of any optional or variable-length section, or  *)
(* extended by a byte (unless the greedy last section is present).                      *)
(***************************************************************************************)
EXTENDS Integers, Sequences, FiniteSets, TLC

\* ---------------------------------------------------------------- bytes
LE32(n) == <<n % 256, (n \div 256) % 256, (n \div 65536) % 256, (n \div 16777216) % 256>>
\* o is a 0-based offset.  -1: not representable as a length (>= 2^31, longer than any payload)
RdLE32(p, o) == IF p[o + 4] >= 128 THEN -1
                ELSE p[o + 1] + 256 * p[o + 2] + 65536 * p[o + 3] + 16777216 * p[o + 4]
RdLE16(p, o) == p[o + 1] + 256 * p[o + 2]
Slice(p, o, n) == SubSeq(p, o + 1, o + n)
Bit(w, k) == (w \div (2 ^ k)) % 2 = 1

\* ---------------------------------------------------------------- the field table
\* bit = -1: unconditional; otherwise present iff that bit of the flag word is set.
\* fr: "fixed" (n bytes) | "u32" (LE32 length prefix) | "nul" (terminated by 00, content
\* has no 00) | "xp" (U8 count, then count x (U16 type, LE32 length, data)) | "rest" (greedy)
Fx(nm, b, n) == [name |-> nm, bit |-> b, fr |-> "fixed", n |-> n]
Vr(nm, b, fr) == [name |-> nm, bit |-> b, fr |-> fr, n |-> 0]
Fields == <<
  Fx("FullID", -1, 16), Fx("ID", -1, 4), Fx("PCode", -1, 1), Fx("State", -1, 1), Fx("CRC", -1, 4),
  Fx("Material", -1, 1), Fx("ClickAction", -1, 1), Fx("Scale", -1, 12), Fx("Position", -1, 12),
  Fx("Rotation", -1, 12), Fx("Flags", -1, 4), Fx("OwnerID", -1, 16),
  Fx("AngularVelocity", 7, 12), Fx("ParentID", 5, 4), Fx("TreeSpecies", 1, 1),
  Vr("ScratchPad", 0, "u32"), Vr("Text", 2, "nul"), Fx("TextColor", 2, 4), Vr("MediaURL", 9, "nul"),
  Fx("PSBlock", 3, 86), Vr("ExtraParams", -1, "xp"),
  Fx("Sound", 4, 16), Fx("SoundGain", 4, 4), Fx("SoundFlags", 4, 1), Fx("SoundRadius", 4, 4),
  Vr("NameValue", 8, "nul"),
  Fx("PathCurve", -1, 1), Fx("ProfileCurve", -1, 1), Fx("PathBegin", -1, 2), Fx("PathEnd", -1, 2),
  Fx("PathScaleX", -1, 1), Fx("PathScaleY", -1, 1), Fx("PathShearX", -1, 1), Fx("PathShearY", -1, 1),
  Fx("PathTwist", -1, 1), Fx("PathTwistBegin", -1, 1), Fx("PathRadiusOffset", -1, 1),
  Fx("PathTaperX", -1, 1), Fx("PathTaperY", -1, 1), Fx("PathRevolutions", -1, 1), Fx("PathSkew", -1, 1),
  Fx("ProfileBegin", -1, 2), Fx("ProfileEnd", -1, 2), Fx("ProfileHollow", -1, 2),
  Vr("TextureEntry", -1, "u32"), Vr("TextureAnim", 6, "u32"), Vr("PSBlockNew", 10, "rest") >>
NF == Len(Fields)
NHeader == 12            \* fields 1..12 are the fixed 84-byte header
HeaderLen == 84
FIdx(nm) == CHOOSE i \in 1..NF : Fields[i].name = nm
FlagsIdx == FIdx("Flags")
PCodeIdx == FIdx("PCode")
StateIdx == FIdx("State")
NumFlagBits == 11
AllFlagWords == 0..(2 ^ NumFlagBits - 1)
PresentIn(fw, i) == Fields[i].bit = -1 \/ Bit(fw, Fields[i].bit)

\* State means something different per object kind: attachment point with swapped nibbles
\* for primitives (PCode 9), a plain flag/number byte otherwise.
SwapNibbles(v) == (v \div 16) + (v % 16) * 16
StateValue(pcode, raw) == IF pcode = 9 THEN SwapNibbles(raw) ELSE raw

\* ---------------------------------------------------------------- framing (encoder side)
Frame(F, c) == CASE F.fr = "u32" -> LE32(Len(c)) \o c
                 [] F.fr = "nul" -> c \o <<0>>
                 [] OTHER -> c
FramedLen(F, c) == CASE F.fr = "u32" -> 4 + Len(c)
                     [] F.fr = "nul" -> Len(c) + 1
                     [] OTHER -> Len(c)

\* ---------------------------------------------------------------- reference parser
\* Extra params: returns the end offset (or -1) and the list of entry types.
RECURSIVE XpWalk(_, _, _, _)
XpWalk(p, pos, k, types) ==
  IF k = 0 THEN [end |-> pos, types |-> types]
  ELSE IF pos + 6 > Len(p) THEN [end |-> -1, types |-> types]
  ELSE LET L == RdLE32(p, pos + 2) IN
       IF L < 0 \/ pos + 6 + L > Len(p) THEN [end |-> -1, types |-> types]
       ELSE XpWalk(p, pos + 6 + L, k - 1, Append(types, RdLE16(p, pos)))

\* offset of the first 00 byte at or after pos, -1 if there is none
RECURSIVE NulAt(_, _)
NulAt(p, k) == IF k >= Len(p) THEN -1 ELSE IF p[k + 1] = 0 THEN k ELSE NulAt(p, k + 1)

Bad == [ok |-> FALSE, start |-> 0, off |-> 0, len |-> 0, end |-> 0, types |-> <<>>]
ReadField(p, pos, F) ==
  CASE F.fr = "fixed" ->
         IF pos + F.n > Len(p) THEN Bad
         ELSE [ok |-> TRUE, start |-> pos, off |-> pos, len |-> F.n, end |-> pos + F.n, types |-> <<>>]
    [] F.fr = "u32" ->
         IF pos + 4 > Len(p) THEN Bad
         ELSE LET L == RdLE32(p, pos) IN
              IF L < 0 \/ pos + 4 + L > Len(p) THEN Bad
              ELSE [ok |-> TRUE, start |-> pos, off |-> pos + 4, len |-> L, end |-> pos + 4 + L, types |-> <<>>]
    [] F.fr = "nul" ->
         LET z == NulAt(p, pos) IN
         IF z < 0 THEN Bad
         ELSE [ok |-> TRUE, start |-> pos, off |-> pos, len |-> z - pos, end |-> z + 1, types |-> <<>>]
    [] F.fr = "xp" ->
         IF pos + 1 > Len(p) THEN Bad
         ELSE LET w == XpWalk(p, pos + 1, p[pos + 1], <<>>) IN
              IF w.end < 0 THEN Bad
              ELSE [ok |-> TRUE, start |-> pos, off |-> pos, len |-> w.end - pos, end |-> w.end, types |-> w.types]
    [] OTHER -> \* "rest"
         [ok |-> TRUE, start |-> pos, off |-> pos, len |-> Len(p) - pos, end |-> Len(p), types |-> <<>>]

\* Parses fields i..upto of p from offset pos; fw = low 16 bits of the flag word once read.
\* f[i] = [pres, start, off, len]: start includes the framing prefix, off/len the content.
RECURSIVE ParseFrom(_, _, _, _, _, _)
ParseFrom(p, i, upto, pos, fw, acc) ==
  IF i > upto THEN [ok |-> TRUE, f |-> acc, end |-> pos, fw |-> fw, bad |-> 0, xp |-> <<>>]
  ELSE IF ~PresentIn(fw, i)
       THEN ParseFrom(p, i + 1, upto, pos, fw, Append(acc, [pres |-> FALSE, start |-> pos, off |-> pos, len |-> 0]))
       ELSE LET r == ReadField(p, pos, Fields[i]) IN
            IF ~r.ok THEN [ok |-> FALSE, f |-> acc, end |-> pos, fw |-> fw, bad |-> i, xp |-> <<>>]
            ELSE LET rest == ParseFrom(p, i + 1, upto, r.end,
                                       IF i = FlagsIdx THEN RdLE16(p, r.off) ELSE fw,
                                       Append(acc, [pres |-> TRUE, start |-> r.start, off |-> r.off, len |-> r.len]))
                 IN IF Fields[i].fr = "xp" THEN [rest EXCEPT !.xp = r.types] ELSE rest
ParsePrefix(p, upto) == ParseFrom(p, 1, upto, 0, 0, <<>>)
Parse(p) == ParsePrefix(p, NF)

\* framing-level well-formedness: every field readable, nothing left over
WellFormed(pr, p) == pr.ok /\ pr.end = Len(p)
\* in the image of the declarative template's encoder: the extra-params collection is a mapping (no type
\* twice).  "Present but empty" is a legal encoding of every variable-length section: a bare terminator for
\* Text / MediaURL / NameValue, a zero count of extra params, a zero-length scratch pad or texture entry,
\* nothing left for the trailing particle system.
Distinct(s) == \A a, b \in 1..Len(s) : a # b => s[a] # s[b]
Canonical(pr) == Distinct(pr.xp)
\* does the decoded field carry a value (as opposed to "no value")?  An empty texture entry
\* and an empty name-value section decode to "no value".
HasValue(pr, i) == pr.f[i].pres /\ (Fields[i].name \in {"TextureEntry", "NameValue"} => pr.f[i].len > 0)

\* ---------------------------------------------------------------- content variants of the bounded model
Fill(i, n) == [j \in 1..n |-> ((13 * i + 5 * j) % 100) + 1]      \* bytes 1..100: finite floats, no NUL
\* filler of the plain fixed-width fields per payload variant: low bytes, high bytes (sign bits set), mixed.
\* Never 00, and never 7F/FF so that no float in a filled field is NaN or infinite.
FloatFields == {"Scale", "Position", "Rotation", "AngularVelocity", "SoundGain", "SoundRadius"}
Rep(b, n) == [j \in 1..n |-> b]
\* variant 5: all-zero blocks; variant 6: all-FF blocks (float fields keep a finite filler: FF FF FF FF is a NaN)
FillV(i, n, w) == CASE w = 1 -> Fill(i, n)
                    [] w = 2 -> [j \in 1..n |-> Fill(i, n)[j] + 128]
                    [] w = 5 -> Rep(0, n)
                    [] w = 6 -> (IF Fields[i].name \in FloatFields THEN Fill(i, n) ELSE Rep(255, n))
                    [] OTHER -> [j \in 1..n |-> LET x == ((37 * i + 11 * j) % 251) + 1 IN IF x = 127 THEN 126 ELSE x]
PSys68 == Fill(50, 68)
PData18 == <<3, 0, 0, 0>> \o Fill(51, 14)                         \* particle data flags without glow/blend
TE46 == Fill(60, 16) \o <<0>> \o Fill(61, 4) \o <<0>> \o Fill(62, 4) \o <<0>> \o Fill(63, 4) \o <<0, 5, 1>>
        \o <<0, 6, 2>> \o <<0, 7, 3>> \o <<0, 9>> \o <<0, 10>> \o <<0, 11>>
\* same with an exception for faces {0} on the first field and the optional materials field
TE80 == Fill(60, 16) \o <<1>> \o Fill(64, 16) \o SubSeq(TE46, 17, 46) \o <<0>> \o Fill(65, 16)
\* face bitfields (7 faces per byte, most significant group first, 80 = more bytes follow) naming high faces:
\* {2, 45} and {45} alone take 7 bytes (the last group of {45} is 00), {0, 63} takes 10 bytes
F2x45 == <<136, 128, 128, 128, 128, 128, 4>>
F45 == <<136, 128, 128, 128, 128, 128, 0>>
F0x63 == <<129, 128, 128, 128, 128, 128, 128, 128, 128, 1>>
F13x14x20x21 == <<129, 193, 192, 0>>  \* faces 13, 14, 20, 21: 4 bytes, last group 00
\* texture entry with exceptions on high faces in three of its fields (textures, colour, glow)
TEHi == SubSeq(TE46, 1, 16) \o F2x45 \o Fill(64, 16) \o SubSeq(TE46, 17, 21) \o F45 \o Fill(66, 4)
        \o SubSeq(TE46, 22, 26) \o F13x14x20x21 \o Fill(67, 4) \o SubSeq(TE46, 27, 46) \o F0x63 \o <<12>>
\* every value FF (floats finite), separators intact
TEFF == Rep(255, 16) \o <<0>> \o Rep(255, 4) \o <<0>> \o Fill(62, 4) \o <<0>> \o Fill(63, 4) \o <<0, 255, 255>>
        \o <<0, 255, 255>> \o <<0, 255, 255>> \o <<0, 255>> \o <<0, 255>> \o <<0, 255>>
NV1 == <<97, 32, 83, 84, 82, 73, 78, 71, 32, 82, 87, 32, 83, 86, 32, 98>>                  \* "a STRING RW SV b"
NV2 == <<110, 32, 83, 51, 50, 32, 82, 32, 83, 32, 53, 10>> \o <<109, 32, 85, 51, 50, 32, 82, 87, 32, 68, 83, 32, 54>>  \* "n S32 R S 5\nm U32 RW DS 6"
\* variant 4: terminated strings at / beyond a 256-byte block boundary (printable ASCII, no NUL, no newline)
Long(n) == [j \in 1..n |-> 97 + (j % 26)]
Variant(nm, i, v, w) ==
  CASE nm = "State" -> (CASE v = 1 -> <<18>> [] v = 2 -> <<0>> [] OTHER -> <<244>>)
    [] nm = "Material" -> (CASE v = 1 -> <<3>> [] v = 2 -> <<2>> [] OTHER -> <<255>>)
    [] nm = "ScratchPad" -> (CASE v = 1 -> <<7>> [] v = 2 -> <<>> [] v = 5 -> Rep(0, 4) [] v = 6 -> Rep(255, 4) [] OTHER -> <<0, 255, 0>>)
    [] nm = "Text" -> (CASE v = 1 -> <<72, 105>> [] v = 2 -> <<>> [] v = 3 -> <<195, 169>> [] OTHER -> Long(256))
    [] nm = "MediaURL" -> (CASE v = 1 -> <<104>> [] v = 2 -> <<>> [] v = 3 -> <<97, 47, 98>> [] OTHER -> Long(257))
    \* all-zero legacy block (particle CRC 0); all-FF block except the glow/blend bits, which the 86-byte layout has no room for
    [] nm = "PSBlock" -> (CASE w = 5 -> Rep(0, 86) [] w = 6 -> Rep(255, 68) \o <<255, 255, 252, 255>> \o Rep(255, 14)
                            [] OTHER -> PSys68 \o PData18)
    [] nm = "ExtraParams" -> (CASE v = 1 -> <<0>>
                                [] v = 5 -> <<2, 32, 0, 16, 0, 0, 0>> \o Rep(0, 16) \o <<48, 0, 17, 0, 0, 0>> \o Rep(0, 17)
                                [] v = 6 -> <<2, 32, 0, 16, 0, 0, 0>> \o Rep(255, 4) \o Fill(52, 12) \o <<112, 0, 4, 0, 0, 0>> \o Rep(255, 4)
                                [] v = 2 -> <<1, 32, 0, 16, 0, 0, 0>> \o Fill(52, 16)
                                [] OTHER -> <<2, 112, 0, 4, 0, 0, 0, 1, 0, 0, 0, 48, 0, 17, 0, 0, 0>> \o Fill(53, 16) \o <<5>>)
    [] nm = "NameValue" -> (CASE v = 1 -> NV1 [] v = 2 -> NV2 [] v = 4 -> NV1 \o Long(300) [] OTHER -> <<>>)
    [] nm = "TextureEntry" -> (CASE v = 1 -> TE46 [] v = 2 -> <<>> [] v = 3 -> TE80 [] v = 5 -> Rep(0, 46) [] v = 6 -> TEFF [] OTHER -> TEHi)
    [] nm = "TextureAnim" -> (CASE w = 5 -> Rep(0, 16) [] w = 6 -> Rep(255, 4) \o Fill(54, 12) [] OTHER -> <<3, 255, 1, 1>> \o Fill(54, 12))
    [] nm = "PSBlockNew" -> (CASE v = 1 -> LE32(68) \o PSys68 \o LE32(18) \o PData18
                               [] v = 5 -> LE32(68) \o Rep(0, 68) \o LE32(18) \o Rep(0, 18)
                               [] v = 6 -> LE32(68) \o Rep(255, 68) \o LE32(22) \o Rep(255, 22)   \* glow and blend present
                               [] v = 2 -> <<>>
                               [] OTHER -> PSys68 \o PData18)
    [] OTHER -> FillV(i, Fields[i].n, w)
Varied == {"State", "Material", "ScratchPad", "Text", "MediaURL", "ExtraParams", "NameValue", "TextureEntry", "PSBlockNew"}

\* ---------------------------------------------------------------- the encoder machine
CONSTANTS FlagWords,   \* set of low-11-bit flag words to enumerate
          HighBits,    \* set of values (multiples of 2048, < 65536) OR-ed into the flag word: must not matter
          PCodes,      \* set of object kinds (PCode bytes)
          Variants,    \* set of content variants (subset of 1..6)
          Product      \* TRUE: every varied field picks its variant independently; FALSE: one variant per payload
VARIABLES flags, hi, pcode, v0, idx, buf, emitted
vars == <<flags, hi, pcode, v0, idx, buf, emitted>>

Content(i, v) == CASE i = FlagsIdx -> LE32(flags + hi)
                   [] i = PCodeIdx -> <<pcode>>
                   [] OTHER -> Variant(Fields[i].name, i, v, v0)

Init == /\ flags \in FlagWords /\ hi \in HighBits /\ pcode \in PCodes
        /\ v0 \in (IF Product THEN {1} ELSE Variants)      \* v0 also selects the filler of the plain fields
        /\ idx = 1 /\ buf = <<>> /\ emitted = <<>>

\* A step writes a run of fields: from idx up to and including the next present variable-length
\* field (or the end of the table).  Absent fields add nothing.
IsStop(k) == PresentIn(flags, k) /\ Fields[k].fr # "fixed"
StopOf(i) == IF \E k \in i..NF : IsStop(k) THEN CHOOSE k \in i..NF : IsStop(k) /\ \A k2 \in i..(k - 1) : ~IsStop(k2)
             ELSE NF
\* variant of field k inside a run: vs/vm for State/Material, v for the run's last field, 1 otherwise
VarOf(k, j, vs, vm, v) == CASE Fields[k].name = "State" -> vs [] Fields[k].name = "Material" -> vm
                            [] k = j -> v [] OTHER -> 1
Rec(k, j, vs, vm, v) == IF PresentIn(flags, k) THEN [pres |-> TRUE, c |-> Content(k, VarOf(k, j, vs, vm, v))]
                        ELSE [pres |-> FALSE, c |-> <<>>]
RECURSIVE RunBytes(_, _, _, _, _)
RunBytes(k, j, vs, vm, v) ==
  IF k > j THEN <<>>
  ELSE (IF PresentIn(flags, k) THEN Frame(Fields[k], Content(k, VarOf(k, j, vs, vm, v))) ELSE <<>>)
       \o RunBytes(k + 1, j, vs, vm, v)
EmitRun(vs, vm, v) ==
  /\ idx <= NF
  /\ IF idx = 1 THEN v = 1 /\ (Product \/ (vs = v0 /\ vm = v0))
     ELSE /\ vs = 1 /\ vm = 1
          /\ IF IsStop(StopOf(idx)) /\ Fields[StopOf(idx)].name \in Varied THEN (Product \/ v = v0) ELSE v = 1
  /\ LET j == IF idx = 1 THEN NHeader ELSE StopOf(idx) IN
     /\ buf' = buf \o RunBytes(idx, j, vs, vm, v)
     /\ emitted' = emitted \o [k \in 1..(j - idx + 1) |-> Rec(idx + k - 1, j, vs, vm, v)]
     /\ idx' = j + 1
  /\ UNCHANGED <<flags, hi, pcode, v0>>

Next == \E vs, vm, v \in Variants \cup {1} : EmitRun(vs, vm, v)
Spec == Init /\ [][Next]_vars
Done == idx = NF + 1

\* ---------------------------------------------------------------- invariants
RECURSIVE SumFramed(_)
SumFramed(k) == IF k = 0 THEN 0
                ELSE SumFramed(k - 1) + (IF emitted[k].pres THEN FramedLen(Fields[k], emitted[k].c) ELSE 0)

TypeOK == /\ idx \in 1..(NF + 1) /\ Len(emitted) = idx - 1
          /\ \A k \in 1..Len(buf) : buf[k] \in 0..255

\* total length = 84-byte header + the framed sections that are present
LengthLaw == /\ Len(buf) = SumFramed(idx - 1)
             /\ (idx > NHeader => Len(buf) = HeaderLen + SumFramed(idx - 1) - SumFramed(NHeader))
             /\ (idx > NHeader => SumFramed(NHeader) = HeaderLen)

\* the reference parser reads back, from the bytes alone, exactly what was written - at every prefix
ReadBack == idx > 1 =>
  LET pr == ParsePrefix(buf, idx - 1) IN
  /\ pr.ok /\ pr.end = Len(buf)
  /\ (idx > FlagsIdx => pr.fw % 2048 = flags)
  /\ \A k \in 1..(idx - 1) :
        /\ pr.f[k].pres = emitted[k].pres
        /\ (emitted[k].pres => Slice(buf, pr.f[k].off, pr.f[k].len) = emitted[k].c)

\* presence is a function of the low 11 bits of the flag word only; the order is the table's
PresenceLaw == \A k \in 1..(idx - 1) : emitted[k].pres = PresentIn(flags, k)

\* a complete payload is well-formed and canonical; with one extra byte it is malformed unless the greedy
\* last section is present; cut in front of, or one byte short of the end of, any optional or variable-length
\* section (other than the greedy last one) it is malformed
Complete == Done =>
  LET pr == Parse(buf) IN
  /\ WellFormed(pr, buf) /\ Canonical(pr)
  /\ LET q == buf \o <<1>> IN WellFormed(Parse(q), q) <=> Bit(flags, 10)
Truncated == (Done /\ ~Product) =>
  LET pr == Parse(buf)
      Cut(n) == SubSeq(buf, 1, n)
      EndOf(k) == IF k = NF THEN Len(buf) ELSE pr.f[k + 1].start IN
  \A k \in (NHeader + 1)..(NF - 1) :
     (pr.f[k].pres /\ (Fields[k].bit # -1 \/ Fields[k].fr # "fixed")) =>
        /\ ~WellFormed(Parse(Cut(pr.f[k].start)), Cut(pr.f[k].start))          \* the whole section missing
        /\ ~WellFormed(Parse(Cut(EndOf(k) - 1)), Cut(EndOf(k) - 1))              \* its last byte missing

\* State is an involution per kind (decode . encode = id on every byte)
StateLaw == \A v \in 0..255 : StateValue(pcode, StateValue(pcode, v)) = v
====
