#!/usr/bin/env python3
"""file_seed.py <src dir> <seed id> <property> '<json: ran / caught_by / notes>'  -> /verif/seeded/<seed id>/"""
import json, os, shutil, sys
src, sid, prop, extra = sys.argv[1:5]
dst = os.path.join("/verif/seeded", sid)
os.makedirs(dst, exist_ok=True)
shutil.copy(os.path.join(src, "patch.diff"), dst)
shutil.copy(os.path.join(src, "demo.py"), dst)
meta = json.load(open(os.path.join(src, "meta.json")))
meta["property"] = prop
meta.update(json.loads(extra))
json.dump(meta, open(os.path.join(dst, "meta.json"), "w"), indent=1)
print("filed", dst)
