#!/bin/sh
# Runs the repository's pinned suite with the verification guard OFF and compares with BASELINE.json.
unset HIPPOLYZER_VERIF
OUT=$(mktemp /tmp/verif-junit-XXXXXX.xml)
cd "${VERIF_REPO:-/repo}" && /venv/bin/python -m pytest -ra -q -p no:cacheprovider --timeout=900 --continue-on-collection-errors --junitxml="$OUT" >/dev/null 2>&1
/venv/bin/python - "$OUT" <<'PY'
import json, sys, xml.etree.ElementTree as ET
base = set(json.load(open('/root/.vp/BASELINE.json'))['stable_pass'])
passed = set()
for tc in ET.parse(sys.argv[1]).getroot().iter('testcase'):
    if not any(c.tag in ('failure', 'error', 'skipped') for c in tc):
        passed.add(tc.get('classname') + '::' + tc.get('name'))
missing = sorted(base - passed)
print("baseline stable_pass=%d passed_now=%d missing=%d" % (len(base), len(passed), len(missing)))
for m in missing:
    print("  MISSING", m)
sys.exit(1 if missing else 0)
PY
RC=$?
rm -f "$OUT"
exit $RC
