#!/bin/sh
# Runs the repository's pinned suite with the verification guard OFF and compares with BASELINE.json.
# Tests missing from the first run are re-run (the baseline itself records one flaky test).
unset HIPPOLYZER_VERIF
REPO="${VERIF_REPO:-/repo}"
OUT=$(mktemp /tmp/verif-junit-XXXXXX.xml)
cd "$REPO" && /venv/bin/python -m pytest -ra -q -p no:cacheprovider --timeout=900 --continue-on-collection-errors --junitxml="$OUT" >/dev/null 2>&1
/venv/bin/python - "$OUT" "$REPO" <<'PY'
import json, subprocess, sys, tempfile, os, xml.etree.ElementTree as ET
base = set(json.load(open('/root/.vp/BASELINE.json'))['stable_pass'])
def passed_of(path):
    ok = set()
    for tc in ET.parse(path).getroot().iter('testcase'):
        if not any(c.tag in ('failure', 'error', 'skipped') for c in tc):
            ok.add(tc.get('classname') + '::' + tc.get('name'))
    return ok
passed = passed_of(sys.argv[1])
missing = sorted(base - passed)
for attempt in range(2):
    if not missing:
        break
    ids = []
    for m in missing:
        cls, name = m.split('::')
        parts = cls.split('.')
        ids.append('/'.join(parts[:-1]) + '.py::' + parts[-1] + '::' + name)
    t = tempfile.mktemp(suffix='.xml')
    subprocess.run(['/venv/bin/python', '-m', 'pytest', '-q', '-p', 'no:cacheprovider', '--timeout=900', '--junitxml=' + t] + ids,
                   cwd=sys.argv[2], stdout=subprocess.DEVNULL, stderr=subprocess.DEVNULL)
    if os.path.exists(t):
        passed |= passed_of(t)
        os.unlink(t)
    missing = sorted(base - passed)
print("baseline stable_pass=%d passed_now=%d missing=%d" % (len(base), len(passed & base), len(missing)))
for m in missing:
    print("  MISSING", m)
sys.exit(1 if missing else 0)
PY
RC=$?
rm -f "$OUT"
exit $RC
