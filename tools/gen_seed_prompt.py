#!/usr/bin/env python3
"""Write the prompt for a seeding sub-agent: property text only (nothing from /verif's checks), its own
worktree, and one-paragraph summaries of the changes earlier rounds produced (so it finds new sites).

usage: gen_seed_prompt.py <CID> <round>   -> /tmp/seed-out/prompt-<CID>-<round>.md, creates the worktree
"""
import glob
import json
import os
import subprocess
import sys

VERIF = os.path.dirname(os.path.dirname(os.path.abspath(__file__)))
TEMPLATE = open(os.path.join(VERIF, "tools", "prompts", "seed_template_C16.md")).read()


def main():
    cid, rnd = sys.argv[1], sys.argv[2]
    tag = "%s-%s" % (cid, rnd)
    props = {}
    for line in open(os.path.join(VERIF, "properties.jsonl")):
        if line.strip():
            p = json.loads(line)
            props[p["id"]] = p
    p = props[cid]
    earlier = []
    for m in sorted(glob.glob(os.path.join(VERIF, "seeded", cid + "-s*", "meta.json"))):
        earlier.append("- " + json.load(open(m))["summary"][:420])
    files = ", ".join(p["anchors"]["files"])
    head, _, _ = TEMPLATE.partition("## The property")
    _, _, tail = TEMPLATE.partition("## Your task")
    tail, _, _ = tail.partition("## Already produced")
    text = head + "## The property\n" + p["title"] + "\n\n" + p["statement"] + "\n\n(Scope, for orientation: " + \
        p["quantifier"]["text"] + ". Code involved: " + files + ".)\n\n## Your task" + tail.rstrip() + "\n\n"
    text = text.replace("C16-3", tag).replace("C16-1", tag).replace('"C16"', '"%s"' % cid)
    if earlier:
        text += ("## Already produced in earlier rounds (do NOT repeat these or close variants; find different sites, "
                 "different clauses of the property, different triggering conditions — prefer ones that need a long or "
                 "unusual multi-step history, an interaction of two code sites that each look fine alone, hidden state "
                 "that only matters several steps later, a rarely taken branch, an unusual configuration value, or a "
                 "boundary value nobody would think of):\n" + "\n".join(earlier) + "\n")
    os.makedirs("/tmp/seed-out/%s/A" % tag, exist_ok=True)
    os.makedirs("/tmp/seed-out/%s/B" % tag, exist_ok=True)
    out = "/tmp/seed-out/prompt-%s.md" % tag
    open(out, "w").write(text)
    wt = "/tmp/seed-wt-" + tag
    if not os.path.exists(wt):
        subprocess.check_call(["git", "-C", "/repo", "worktree", "add", "--detach", "-q", wt, "HEAD"])
    print(out)


if __name__ == "__main__":
    main()
