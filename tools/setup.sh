#!/bin/sh
# Offline setup: nothing to build; verify the tools the checks rely on.
set -e
cd "$(dirname "$0")/.."
test -f /opt/veriftools/tla/tla2tools.jar && java -version >/dev/null 2>&1 || { echo "TLC/java missing"; exit 1; }
/venv/bin/python -c "import hypothesis, sys; sys.path.insert(0, '${VERIF_REPO:-/repo}'); import hippolyzer.lib.base.serialization"
mkdir -p evidence replays
echo setup ok
