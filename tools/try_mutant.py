#!/usr/bin/env python3
"""Development aid: apply an inline mutation (or a patch file) to a checkout's working tree, run
checks, always restore the tree to what it was before (uncommitted edits are preserved).
usage: [VERIF_REPO=/tmp/wt] try_mutant.py <IDs comma> <file> <old> <new>
       [VERIF_REPO=/tmp/wt] try_mutant.py <IDs comma> --patch <diff>"""
import subprocess, sys, os, tempfile
ids = sys.argv[1].split(",")
repo = os.environ.get("VERIF_REPO", "/repo")
before = subprocess.run(["git", "-C", repo, "diff"], capture_output=True, text=True).stdout
if repo == "/repo":
    assert before.strip() == "", "/repo has uncommitted changes"
try:
    if sys.argv[2] == "--patch":
        subprocess.check_call(["git", "-C", repo, "apply", sys.argv[3]])
    else:
        f, old, new = sys.argv[2:5]
        p = os.path.join(repo, f)
        s = open(p).read()
        assert s.count(old) >= 1, "pattern not found"
        open(p, "w").write(s.replace(old, new, 1))
    tier = os.environ.get("TIER", "quick")
    for i in ids:
        r = subprocess.run(["/verif/check", i, tier], capture_output=True, text=True, env=dict(os.environ, VERIF_REPO=repo))
        lines = [l for l in r.stdout.splitlines() if l.startswith(("VIOLATION", "KNOWN", "MACHINERY", i))]
        print(i, "exit", r.returncode, "|", " | ".join(lines[:3])[:500])
finally:
    subprocess.check_call(["git", "-C", repo, "checkout", "--", "."])
    if before.strip():
        with tempfile.NamedTemporaryFile("w", suffix=".diff", delete=False) as t:
            t.write(before)
        subprocess.check_call(["git", "-C", repo, "apply", t.name])
        os.unlink(t.name)
