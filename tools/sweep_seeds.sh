#!/bin/bash
# usage: sweep_seeds.sh [seed-id-glob]   -- regression sweep: every filed seed must still make its property's quick check exit 1
# (obsolete seeds are skipped).  One private worktree, sequential.  Output: one line per seed.
PAT="${1:-*}"
WT=/tmp/wt-sweep-$$
git -C /repo worktree add --detach $WT HEAD >/dev/null 2>&1 || exit 2
for d in /verif/seeded/$PAT/; do
  id=$(basename $d)
  prop=$(python3 -c "import json;m=json.load(open('$d/meta.json'));print(m['property'] if not m.get('obsolete') else 'OBSOLETE')")
  [ "$prop" = "OBSOLETE" ] && { echo "$id skipped (obsolete)"; continue; }
  (cd $WT && git checkout -q -- . && git apply "$d/patch.diff") || { echo "$id PATCH-DOES-NOT-APPLY"; continue; }
  VERIF_REPO=$WT /verif/check $prop quick > /tmp/sweep-$$.out 2>&1; rc=$?
  echo "$id $prop exit=$rc $(grep -m1 'VIOLATION\|MACHINERY\|held' /tmp/sweep-$$.out | cut -c1-160)"
done
cd /; git -C /repo worktree remove --force $WT; rm -f /tmp/sweep-$$.out; rm -rf /tmp/verif-evidence-$(basename $WT)
