#!/bin/bash
# usage: verify_seed.sh <seed dir containing patch.diff demo.py> <check ids comma> [tier]
# Confirms a seeded change in a scratch worktree: demo passes without / fails with the patch,
# the pinned suite still passes with it, then runs the given checks against the patched tree.
SD="$1"; IDS="$2"; TIER="${3:-quick}"
WT=/tmp/wt-seedverify-$$
T=/tmp/seedverify-$$
git -C /repo worktree remove --force $WT >/dev/null 2>&1
git -C /repo worktree add --detach $WT HEAD >/dev/null 2>&1 || exit 2
cd $WT
cp "$SD/demo.py" $WT/demo.py
/venv/bin/python -W ignore demo.py >$T-demo0.out 2>&1; D0=$?
git apply "$SD/patch.diff" || { echo "PATCH DOES NOT APPLY"; git -C /repo worktree remove --force $WT; exit 2; }
/venv/bin/python -W ignore demo.py >$T-demo1.out 2>&1; D1=$?
rm -f $WT/demo.py
VERIF_REPO=$WT /verif/tools/baseline_off.sh > $T-base.out 2>&1; B=$?
echo "demo_without_patch=$D0 demo_with_patch=$D1 suite_with_patch=$B ($(head -1 $T-base.out))"
for i in ${IDS//,/ }; do
  VERIF_REPO=$WT VERIF_TIER=$TIER /verif/check $i $TIER > $T-check-$i.out 2>&1; RC=$?
  echo "check $i $TIER exit=$RC | $(grep -m2 'VIOLATION\|MACHINERY\|held' $T-check-$i.out | cut -c1-220 | tr '\n' '|')"
done
cd /; git -C /repo worktree remove --force $WT; rm -f $T-*.out; rm -rf /tmp/verif-evidence-$(basename $WT)
