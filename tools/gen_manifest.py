#!/usr/bin/env python3
"""Regenerates /verif/MANIFEST.json from the table below (kept valid at all times)."""
import json, os, subprocess
HERE = os.path.dirname(os.path.dirname(os.path.abspath(__file__)))

CHECKS = json.load(open(os.path.join(HERE, "tools", "checks.json")))

PENDING = {}
for i in range(1, 21):
    pid = "C%02d" % i
    if pid not in CHECKS:
        PENDING[pid] = "check not built yet in this round (specification planned in DESIGN.md section 6/%s); not claimed until its check is sound" % pid


def main():
    hooks_commits = []
    p = os.path.join(HERE, "hooks_commits.txt")
    if os.path.exists(p):
        hooks_commits = [l.split()[0] for l in open(p) if l.strip()]
    m = {
        "version": 1,
        "setup_cmd": "./tools/setup.sh",
        "hooks": {
            "guard": "HIPPOLYZER_VERIF",
            "enable": "no source hooks are needed: checks import /repo's working tree directly (PYTHONPATH) and observe public calls, transports and queues; ./check exports HIPPOLYZER_VERIF=1 for any future hook",
            "baseline_off_cmd": "./tools/baseline_off.sh",
            "source_commits": hooks_commits,
            "add_only": True,
        },
        "engines": [
            {"name": "tlc", "path": "/opt/veriftools/tla/tla2tools.jar", "serves_properties": sorted(CHECKS),
             "kind_free_text": "TLC 1.8.0 explicit-state model checker: exhaustive bounded models, MBT edge export, batched trace validation"},
            {"name": "harness", "path": "/verif/harness", "serves_properties": sorted(CHECKS),
             "kind_free_text": "Python conformance drivers (replay spec edges into /repo's code; record traces for TLC)"},
        ],
        "checks": [],
        "not_applicable": [{"property_id": k, "reason": v} for k, v in sorted(PENDING.items())],
        "notes": "All checks: ./check <ID> quick|thorough. Exit 0 held, 1 violation (VIOLATION line), 2 machinery failure. See DESIGN.md.",
    }
    for pid, c in sorted(CHECKS.items()):
        m["checks"].append({
            "property_id": pid,
            "quick_cmd": "./check %s quick" % pid,
            "thorough_cmd": "./check %s thorough" % pid,
            "evidence_file": "/verif/evidence/%s.json" % pid,
            "replay_cmd_template": "./check %s --replay {path}" % pid,
            "engine": "tlc",
            "level_claimed": {"category": "model_checking", "text": c["text"], "design_ref": c["ref"]},
            "level_note": c["note"],
            "technique": c["technique"],
        })
    with open(os.path.join(HERE, "MANIFEST.json"), "w") as f:
        json.dump(m, f, indent=1)
        f.write("\n")

if __name__ == "__main__":
    main()
