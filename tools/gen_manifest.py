#!/usr/bin/env python3
"""Regenerates /verif/MANIFEST.json from the table below (kept valid at all times)."""
import json, os, subprocess
HERE = os.path.dirname(os.path.dirname(os.path.abspath(__file__)))

CHECKS = {
 "C04": dict(
   technique="TLA+ spec (InjectionTracker.tla: Spec layer Ideal/IdealOrig + transcribed Algo layer) model-checked by TLC; "
             "B1 replay of every edge of the bounded model into the real InjectionTracker with all constrained IDs queried; "
             "B2 TLC trace validation of random walks (windows 3, 5, 10000)",
   text="TLC exhausts all interleavings of send/out-of-order send/inject up to the depth bound with small windows (eviction reached) and checks "
        "injectivity, order, stability, inverse and freshness on the transcribed algorithm; every edge of that graph is replayed into the real "
        "tracker and every ID's forward/backward translation compared with the specification's answer, so the code is bound to the checked design.",
   note="Trusted: the projection (Send = get_effective_id + track_seen as prepare_message does), TLC, the environment assumption CanSend (IDs within a window of the frontier, no wrap-around).",
   ref="6/C04"),
 "C03": dict(
   technique="TLA+ format spec (ZeroCode.tla: closed-form Encode, reference Decode, cap law) + encoder/decoder machines model-checked by TLC "
             "against it; B3 replay of every TLC-printed table row (all strings over {00,01,FF} up to the bound, all encoded strings over "
             "{00,01,02,FF}, all zero runs 0..1100 x 16 contexts) through the real functions; TLC re-computation of recorded random/adversarial calls",
   text="TLC checks round-trip, canonicity, no-wrap and the 2x bound in every state of the byte-fed encoder machine and the cap law on the decoder machine; "
        "each enumerated input and its TLC-computed encoding is replayed through zero_code_compress/zero_code_expand, and recorded calls on random, long and "
        "adversarial (wrap-form, trailing-zero, around-the-cap) inputs are re-computed by TLC, so both directions of the format are bound to the spec.",
   note="Trusted: TLC, the run-length projection to_rl, the refusal window (must decode <= 0x3000, must refuse > 0x3000+256).",
   ref="6/C03"),
 "C05": dict(
   technique="TLA+ spec (ProxiedCircuit.tla: both directions, appended/PacketAck acks, forward/drop, injections, resend clock; invariants Truthful, "
             "NoInjectedAckLeaks, CompletionExact, ResendOnlyPending) model-checked by TLC; B1 replay of every edge of the exhaustive bounded graph and of "
             "TLC-simulated deep behaviours through the real InterceptingLLUDPProxyProtocol.handle_proxied_packet + ProxiedCircuit with a virtual clock",
   text="TLC enumerates every interleaving of viewer/simulator packets (reliable or not, resent, acks in either form), proxy drops, proxy injections and clock ticks "
        "up to the depth bound and checks ack truthfulness against ghost ground truth and the completion/resend rules; every edge (and every step of sampled deeper "
        "behaviours incl. the full 10-try retry budget) is executed on the real proxy objects and the emitted datagrams, future states and message flags compared with the model.",
   note="Trusted: TLC, the datagram projection (real deserializer), the virtual clock shim, the scripted drop addon; tracker eviction is out of scope here (C04).",
   ref="6/C05"),
 "C07": dict(
   technique="TLA+ spec (AddonDispatch.tla: one message through every hook point, ownership machine fresh/queued/sent/dropped, every assignment of "
             "hook behaviours as initial states; invariants AtMostOnce, ExactlyOnceUnlessClaimed, NoResurrection, Isolation, Bookkeeping) model-checked by TLC; "
             "B1 replay of every configuration's terminal observation through the real proxy with scripted addons/subscribers, plus a follow-up message",
   text="TLC enumerates every assignment of behaviours (return falsy/truthy, raise, take, take+send copy, drop, send, double operations, mutate) to the packet- and "
        "message-level hooks of up to three addons and to session/region subscribers, for both directions, reliability and command-channel chat, and checks the "
        "at-most-once / exactly-once-unless-claimed / no-resurrection / isolation invariants on the pipeline model; each configuration is executed on the real "
        "InterceptingLLUDPProxyProtocol and the wire emissions, refused operations, invoked hooks, logging and final ownership are compared with the model.",
   note="Trusted: TLC, the scripted addon vocabulary (take/send/drop/mutate/return/raise), content-marker classification of emissions; hooks invoked beyond the model's set are tolerated.",
   ref="6/C07"),
}

PENDING = {}
for i in range(1, 21):
    pid = "C%02d" % i
    if pid not in CHECKS:
        PENDING[pid] = "check not built yet in this round (specification planned in DESIGN.md section 6/%s); not claimed until its check is sound" % pid


def main():
    hooks_commits = []
    p = os.path.join(HERE, "hooks_commits.txt")
    if os.path.exists(p):
        hooks_commits = [l.split()[0] for l in open(p) if l.strip()]
    m = {
        "version": 1,
        "setup_cmd": "./tools/setup.sh",
        "hooks": {
            "guard": "HIPPOLYZER_VERIF",
            "enable": "no source hooks are needed: checks import /repo's working tree directly (PYTHONPATH) and observe public calls, transports and queues; ./check exports HIPPOLYZER_VERIF=1 for any future hook",
            "baseline_off_cmd": "./tools/baseline_off.sh",
            "source_commits": hooks_commits,
            "add_only": True,
        },
        "engines": [
            {"name": "tlc", "path": "/opt/veriftools/tla/tla2tools.jar", "serves_properties": sorted(CHECKS),
             "kind_free_text": "TLC 1.8.0 explicit-state model checker: exhaustive bounded models, MBT edge export, batched trace validation"},
            {"name": "harness", "path": "/verif/harness", "serves_properties": sorted(CHECKS),
             "kind_free_text": "Python conformance drivers (replay spec edges into /repo's code; record traces for TLC)"},
        ],
        "checks": [],
        "not_applicable": [{"property_id": k, "reason": v} for k, v in sorted(PENDING.items())],
        "notes": "All checks: ./check <ID> quick|thorough. Exit 0 held, 1 violation (VIOLATION line), 2 machinery failure. See DESIGN.md.",
    }
    for pid, c in sorted(CHECKS.items()):
        m["checks"].append({
            "property_id": pid,
            "quick_cmd": "./check %s quick" % pid,
            "thorough_cmd": "./check %s thorough" % pid,
            "evidence_file": "/verif/evidence/%s.json" % pid,
            "replay_cmd_template": "./check %s --replay {path}" % pid,
            "engine": "tlc",
            "level_claimed": {"category": "model_checking", "text": c["text"], "design_ref": c["ref"]},
            "level_note": c["note"],
            "technique": c["technique"],
        })
    with open(os.path.join(HERE, "MANIFEST.json"), "w") as f:
        json.dump(m, f, indent=1)
        f.write("\n")

if __name__ == "__main__":
    main()
